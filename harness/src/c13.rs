//! C13: everything written conforms to the documented archive format.
//! After every mutating step of generated histories (incl. interrupted backups): an independent
//! reader written from doc/format.md checks the archive, and the Lean predicate `Conforms`
//! (the same clauses, the one the theorems are about) is evaluated on the real state.
use crate::absarch::blake_hex;
use crate::compare::{CmpOpts, Session, compare_run, compare_state, parse_answer};
use crate::hist::*;
use crate::real::band_name;
use crate::report::Report;
use crate::rng::Rng;
use crate::sweep::*;
use crate::treespec::*;
use serde_json::{Value, json};
use std::collections::BTreeMap;

fn apath_valid(a: &str) -> bool {
    crate::c11::spec_valid(a)
}

/// The documented format, clause by clause, on the independently decoded state.
/// `snap`: sizes of the source files when band b was completed (for the "lengths sum to the size" clause).
pub fn format_violations(state: &[String], snaps: &BTreeMap<u32, Vec<Obs>>) -> Vec<(String, Value)> {
    let st = state_map(state);
    let mut bad: Vec<(String, Value)> = Vec::new();
    for b in all_bands(state) {
        let bn = band_name(b);
        let prefix = format!("{bn}/i/");
        let hunks: Vec<(&String, &String)> = st.range(prefix.clone()..).take_while(|(k, _)| k.starts_with(&prefix)).filter(|(k, v)| k.matches('/').count() == 3 && v.as_str() != "dir").collect();
        let complete = st.contains_key(&format!("{bn}/BANDTAIL"));
        // numbered consecutively from zero
        for (i, (k, _)) in hunks.iter().enumerate() {
            let n: usize = k.rsplit('/').next().unwrap().parse().unwrap_or(usize::MAX);
            if n != i {
                bad.push(("format:hunk-numbering".into(), json!({"band": bn, "expected": i, "found": k})));
                break;
            }
            // … each in the subdirectory named by its number divided by 10000, five digits
            let sub = k[prefix.len()..].split('/').next().unwrap_or("");
            if sub != format!("{:05}", n / 10000) {
                bad.push(("format:hunk-subdirectory".into(), json!({"band": bn, "hunk": k, "expected_subdir": format!("{:05}", n / 10000)})));
                break;
            }
        }
        let mut all_entries: Vec<DecEntry> = Vec::new();
        for (i, (k, v)) in hunks.iter().enumerate() {
            if v.starts_with("hunk:") {
                let es = decode_hunk_text(v);
                if es.is_empty() {
                    bad.push(("format:empty-hunk".into(), json!({"hunk": k})));
                }
                all_entries.extend(es);
            } else if v.as_str() == "empty" && i + 1 == hunks.len() && !complete {
                // zero-length leftover of a killed write: whatever was written still conforms
            } else {
                bad.push(("format:undecodable-hunk".into(), json!({"hunk": k, "value": &v[..v.len().min(30)]})));
            }
        }
        for w in all_entries.windows(2) {
            if crate::c11::doc_cmp(&w[0].apath, &w[1].apath) != std::cmp::Ordering::Less {
                bad.push(("format:entries-not-increasing".into(), json!({"band": bn, "a": w[0].apath, "b": w[1].apath})));
            }
        }
        let snap: BTreeMap<&str, &Obs> = snaps.get(&b).map(|v| v.iter().map(|o| (o.apath.as_str(), o)).collect()).unwrap_or_default();
        for e in &all_entries {
            if !apath_valid(&e.apath) {
                bad.push(("format:invalid-apath".into(), json!({"band": bn, "apath": e.apath})));
            }
            let f: Vec<&str> = e.raw.split(',').collect();
            let has_target = f[7] != "-";
            match e.kind {
                'f' => {
                    if has_target {
                        bad.push(("format:target-on-non-symlink".into(), json!({"band": bn, "apath": e.apath})));
                    }
                    match entry_content(&st, e) {
                        Err(why) => bad.push(("format:address-outside-block".into(), json!({"band": bn, "apath": e.apath, "why": why}))),
                        Ok(bytes) => {
                            if let Some(o) = snap.get(e.apath.as_str()) {
                                if o.kind == 'f' && o.content.len() != bytes.len() {
                                    bad.push(("format:lengths-do-not-sum-to-size".into(), json!({"band": bn, "apath": e.apath, "size": o.content.len(), "sum": bytes.len()})));
                                }
                            }
                        }
                    }
                }
                'l' => {
                    if !has_target {
                        bad.push(("format:symlink-without-target".into(), json!({"band": bn, "apath": e.apath})));
                    }
                    if !e.addrs.is_empty() {
                        bad.push(("format:addresses-on-non-file".into(), json!({"band": bn, "apath": e.apath})));
                    }
                }
                _ => {
                    if has_target {
                        bad.push(("format:target-on-non-symlink".into(), json!({"band": bn, "apath": e.apath})));
                    }
                    if !e.addrs.is_empty() {
                        bad.push(("format:addresses-on-non-file".into(), json!({"band": bn, "apath": e.apath})));
                    }
                }
            }
        }
        // a completed version's tail states the true hunk count
        if let Some(t) = st.get(&format!("{bn}/BANDTAIL")) {
            // (a tail of the form conserve < 0.6.4 wrote carries no count: "tail:-")
            if t.as_str() != "empty" && t.as_str() != "tail:-" && *t != format!("tail:{}", hunks.len()) {
                bad.push(("format:tail-hunk-count".into(), json!({"band": bn, "tail": t, "hunks": hunks.len()})));
            }
        }
    }
    // every block named by the BLAKE2b of its content, under its first three hex digits
    for (k, v) in &st {
        if k.starts_with("d/") && k.matches('/').count() == 2 {
            let name = k.rsplit('/').next().unwrap();
            let sub = k.split('/').nth(1).unwrap();
            if let Some(hexc) = v.strip_prefix("block:") {
                let c = hex::decode(hexc).unwrap();
                if blake_hex(&c) != name || !name.starts_with(sub) || sub.len() != 3 {
                    bad.push(("format:block-misnamed".into(), json!({"path": k})));
                }
            } else if v.as_str() != "empty" {
                bad.push(("format:block-undecodable".into(), json!({"path": k})));
            }
        }
    }
    bad
}

/// Directed: one version with MORE THAN 10000 index hunks (one entry per hunk), so that the second index
/// subdirectory and six-digit-plus hunk numbers are exercised.  Real code + independent reader only (no model run).
fn big_index(seed: u64, report: &mut Report) {
    let work = tempfile::tempdir().unwrap();
    let src = work.path().join("src");
    std::fs::create_dir(&src).unwrap();
    let n = 10_003 + (seed % 7) as usize;
    for i in 0..n {
        std::fs::write(src.join(format!("e{i:05}")), b"").unwrap();
    }
    std::fs::create_dir(src.join("zdir")).unwrap();
    std::fs::write(src.join("zdir/small1"), b"abc").unwrap();
    std::fs::write(src.join("zdir/small2"), b"defg").unwrap();
    let arch = work.path().join("arch");
    crate::real::create_archive(&arch);
    let p = crate::real::BackupParams { max_entries_per_hunk: 1, max_block_size: 64, small_file_cap: 16, owner: true, exclude: vec![] };
    let r = crate::real::real_backup(&arch, &src, &p, crate::icept::IceptConfig::default());
    let case = json!({"directed": "big-index", "entries": n + 4, "max_entries_per_hunk": 1});
    report.case(&format!("big-index/{n}"), true);
    report.hit("directed:big-index(>10000 hunks)");
    if !r.result.starts_with("result ok") {
        report.oracle_fail("format:big-index-backup-failed", case, "a backup with more than 10000 index hunks did not succeed", json!(crate::compare::trunc(&r.result)));
        return;
    }
    let (state, _) = crate::absarch::abstract_archive(&arch);
    for (sig, what) in format_violations(&state, &BTreeMap::new()) {
        report.oracle_fail(&sig, case.clone(), "the independent reader of the documented format found a violation", what);
    }
}

/// Directed: archive FILES of several MiB (the tool's default options: 20 MiB blocks, 1 MiB small-file cap) —
/// incompressible data, so that single block files exceed 2 MiB on disk.  Real code + an independent reader
/// working on the raw files (no hex state, no model).
fn big_blocks(seed: u64, report: &mut Report) {
    let work = tempfile::tempdir().unwrap();
    let src = work.path().join("src");
    std::fs::create_dir(&src).unwrap();
    let mut x = seed | 1;
    let mut noise = |n: usize| -> Vec<u8> { (0..n).map(|_| { x ^= x << 13; x ^= x >> 7; x ^= x << 17; (x >> 24) as u8 }).collect() };
    let mib = 1usize << 20;
    let files: Vec<(&str, Vec<u8>)> = vec![("a-small", b"hello".to_vec()), ("b-noise-3m", noise(3 * mib)), ("c-zeros-6m", vec![0u8; 6 * mib]), ("d-noise-2m-1", noise(2 * mib - 1)), ("e-noise-1m5", noise(mib + mib / 2))];
    for (n, b) in &files {
        std::fs::write(src.join(n), b).unwrap();
    }
    let arch = work.path().join("arch");
    crate::real::create_archive(&arch);
    let p = crate::real::BackupParams { max_entries_per_hunk: 100_000, max_block_size: 20 << 20, small_file_cap: 1 << 20, owner: true, exclude: vec![] };
    let r = crate::real::real_backup(&arch, &src, &p, crate::icept::IceptConfig::default());
    let case = json!({"directed": "big-blocks", "files": files.iter().map(|(n, b)| json!({"name": n, "len": b.len()})).collect::<Vec<_>>(), "options": "the tool's defaults"});
    report.case("big-blocks", true);
    report.hit("directed:big-blocks(files > 2 MiB on disk)");
    if !r.result.starts_with("result ok") || !r.result.contains(" errors=0") {
        report.oracle_fail("format:big-blocks-backup-failed", case, "a backup of files of a few MiB did not succeed", json!(crate::compare::trunc(&r.result)));
        return;
    }
    let expect: BTreeMap<String, Vec<u8>> = files.iter().map(|(n, b)| (format!("/{n}"), b.clone())).collect();
    for (sig, what) in raw_reader(&arch, 0, &expect) {
        report.oracle_fail(&sig, case.clone(), "the independent reader of the raw archive files found a violation", what);
    }
}

/// Directed, real code + the property's oracle: the SOURCE changes while it is being backed up.  A directory's
/// files are all stat'ed when the directory is listed and read one by one afterwards, so a file can shrink, grow,
/// be emptied or vanish between the two.  Whatever the backup then records, the format must hold: every address
/// inside its block, lengths summing to what the addresses deliver, validate finding no short block, and the
/// files that did NOT change recorded with exactly their bytes.
fn source_changes_during_backup(report: &mut Report) {
    let mutations: &[(&str, &str)] = &[("shrinks", "truncate to 40 bytes"), ("grows", "append 200 bytes"), ("emptied", "truncate to 0"), ("vanishes", "remove"), ("replaced", "same length, other bytes")];
    for (cap, capname, victim_name) in [(1u64 << 20, "combined small files", "b"), (1u64 << 20, "combined small files, the changing file last in its block", "c"), (0u64, "one block per file", "b")] {
        for (mname, mdesc) in mutations {
            let work = tempfile::tempdir().unwrap();
            let (src, arch) = (work.path().join("src"), work.path().join("arch"));
            std::fs::create_dir(&src).unwrap();
            for (n, c) in [("a", b'a'), ("b", b'b'), ("c", b'c')] {
                std::fs::write(src.join(n), vec![c; 100]).unwrap();
            }
            crate::real::create_archive(&arch);
            let p = crate::real::BackupParams { max_entries_per_hunk: 1000, max_block_size: 1 << 20, small_file_cap: cap, owner: true, exclude: vec![] };
            let victim = src.join(victim_name);
            let m = mname.to_string();
            let done = std::cell::Cell::new(false);
            // when the event for /a arrives (its siblings have been stat'ed with their directory but not yet read), change one of them
            let hook = Box::new(move |apath: &str| {
                if apath != "/a" || done.replace(true) {
                    return;
                }
                match m.as_str() {
                    "shrinks" => std::fs::write(&victim, vec![b'B'; 40]).unwrap(),
                    "grows" => std::fs::write(&victim, vec![b'B'; 300]).unwrap(),
                    "emptied" => std::fs::write(&victim, b"").unwrap(),
                    "vanishes" => std::fs::remove_file(&victim).unwrap(),
                    _ => std::fs::write(&victim, vec![b'B'; 100]).unwrap(),
                }
            });
            let obs_at_listing = observe(&src);
            let r = crate::real::with_change_hook(hook, || crate::real::real_backup(&arch, &src, &p, crate::icept::IceptConfig::default()));
            let case = json!({"directed": "source changes during the backup", "layout": capname, "changing_file": victim_name, "change": mdesc});
            report.case(&format!("source-changes/{capname}/{mname}"), true);
            report.hit(&format!("directed:source-changes:{mname}"));
            if r.result.starts_with("result panic") {
                report.oracle_fail("format:source-change-crashed-backup", case.clone(), "the backup crashed when a file changed under it", json!(crate::compare::trunc(&r.result)));
                continue;
            }
            let expect: BTreeMap<String, Vec<u8>> = [("a", b'a'), ("b", b'b'), ("c", b'c')].into_iter().filter(|(n, _)| *n != victim_name).map(|(n, c)| (format!("/{n}"), vec![c; 100])).collect();
            for (sig, what) in raw_reader(&arch, 0, &expect) {
                report.oracle_fail(&sig, case.clone(), "after a backup during which a source file changed, the independent reader of the raw archive files found a violation", what);
            }
            let (state, _) = crate::absarch::abstract_archive(&arch);
            for (sig, what) in format_violations(&state, &BTreeMap::new()) {
                report.oracle_fail(&sig, case.clone(), "after a backup during which a source file changed, the archive does not conform to the documented format", what);
            }
            // the model has `st_size` and the bytes a read returns as separate fields (C13's theorems assume nothing
            // about their agreement): metadata and size as listed, content as it is when read
            if *mname != "vanishes" {
                let mut at_read = obs_at_listing.clone();
                let now = observe(&src);
                for o in at_read.iter_mut() {
                    if o.apath == format!("/{victim_name}") {
                        o.content = now.iter().find(|n| n.apath == o.apath).map(|n| n.content.clone()).unwrap_or_default();
                    }
                }
                let mut lines = src_lines(&at_read);
                for l in lines.iter_mut() {
                    // keep the size field at its listing-time value (100)
                    let f: Vec<&str> = l.split(' ').collect();
                    if f[1] == hex::encode(format!("/{victim_name}")) {
                        let mut g: Vec<String> = f.iter().map(|x| x.to_string()).collect();
                        g[7] = "100".into();
                        *l = g.join(" ");
                    }
                }
                let mut session = Session::new();
                let (empty, _) = {
                    let fresh = work.path().join("fresh");
                    crate::real::create_archive(&fresh);
                    crate::absarch::abstract_archive(&fresh)
                };
                session.load_src(&lines);
                session.load_store(&empty);
                let i_b = session.push(format!("backup {} -", p.model_args()));
                let i_d = session.push("dump".into());
                let answers = session.run();
                compare_run(report, "source-change:backup", &case, &r, &parse_answer(&answers[i_b]), &CmpOpts::default());
                compare_state(report, "source-change:backup", &case, &state, &answers[i_d]);
                report.hit("directed:source-changes:compared-with-model");
            }
            let v = crate::real::real_validate(&arch, false, crate::icept::IceptConfig::default());
            if v.events.iter().any(|e| e.starts_with("event error")) {
                report.oracle_fail("format:validate-complains-after-source-change", case.clone(), "validate reports errors on what a backup wrote while a source file changed", json!(v.events.iter().take(3).collect::<Vec<_>>()));
            }
        }
    }
}

/// Directed, real code + the independent reader: the disk fills up in the middle of a backup (a 3 MiB tmpfs
/// mounted by the harness; skipped with a note when mounting is not possible).  The backup may fail — but whatever
/// it leaves under a block's or hunk's final name must be the whole thing or nothing (a zero-length leftover):
/// no truncated stub that later backups would take for a stored block.
fn full_disk_leaves_no_stub(seed: u64, report: &mut Report) {
    let work = tempfile::tempdir().unwrap();
    let mnt = work.path().join("mnt");
    std::fs::create_dir(&mnt).unwrap();
    let mounted = std::process::Command::new("mount").args(["-t", "tmpfs", "-o", "size=3m", "tmpfs"]).arg(&mnt).status().map(|s| s.success()).unwrap_or(false);
    if !mounted {
        report.hit("full-disk:mount-unavailable");
        report.notes.push("could not mount a small tmpfs (not root?): the full-disk scenario of C13 is skipped".into());
        return;
    }
    let arch = mnt.join("arch");
    let src = work.path().join("src");
    std::fs::create_dir(&src).unwrap();
    let mut x = seed | 1;
    let mut noise = |n: usize| -> Vec<u8> { (0..n).map(|_| { x ^= x << 13; x ^= x >> 7; x ^= x << 17; (x >> 24) as u8 }).collect() };
    let kib = 1usize << 10;
    // many blocks of a few hundred KiB each, all below tokio's 2 MiB chunk: each is written by one write + flush
    let files: Vec<(String, Vec<u8>)> = (0..12).map(|i| (format!("f{i:02}"), noise(300 * kib + i * 7919))).collect();
    for (n, b) in &files {
        std::fs::write(src.join(n), b).unwrap();
    }
    crate::real::create_archive(&arch);
    let p = crate::real::BackupParams { max_entries_per_hunk: 4, max_block_size: 20 << 20, small_file_cap: 16, owner: true, exclude: vec![] };
    let r = crate::real::real_backup(&arch, &src, &p, crate::icept::IceptConfig::default());
    let case = json!({"directed": "full disk", "archive_on": "tmpfs size=3m", "source_bytes": files.iter().map(|(_, b)| b.len()).sum::<usize>(), "result": crate::compare::trunc(&r.result)});
    report.case("full-disk", true);
    report.hit("directed:full-disk");
    let expect: BTreeMap<String, Vec<u8>> = files.iter().map(|(n, b)| (format!("/{n}"), b.clone())).collect();
    for (sig, what) in raw_reader(&arch, 0, &expect) {
        report.oracle_fail(&sig, case.clone(), "after a backup that ran into a full disk the independent reader of the raw archive files found a violation", what);
    }
    // index hunks too: whole or zero-length
    for h in walk(&arch.join("b0000").join("i")) {
        let bytes = std::fs::read(&h).unwrap_or_default();
        if !bytes.is_empty() && crate::absarch::decode_hunk(&bytes).is_none() {
            report.oracle_fail("format:undecodable-hunk", case.clone(), "a truncated index hunk was left under its final name by a write that failed on a full disk", json!({"hunk": h.to_string_lossy(), "bytes": bytes.len()}));
        }
    }
    let _ = std::process::Command::new("umount").arg(&mnt).status();
}

fn walk(root: &std::path::Path) -> Vec<std::path::PathBuf> {
    let mut out = Vec::new();
    if let Ok(rd) = std::fs::read_dir(root) {
        for e in rd.flatten() {
            let p = e.path();
            if p.is_dir() { out.extend(walk(&p)); } else { out.push(p); }
        }
    }
    out
}

/// Independent reader working on the RAW files of an archive (no hex state): every block file decompresses and
/// is stored under / named by the BLAKE2b hash of its content; every FILE entry recorded in version `band` has
/// addresses inside readable blocks whose bytes are exactly `expect[apath]` (entries for paths not in `expect`
/// are only checked for readable addresses).
pub fn raw_reader(arch: &std::path::Path, band: u32, expect: &BTreeMap<String, Vec<u8>>) -> Vec<(String, Value)> {
    let mut bad: Vec<(String, Value)> = Vec::new();
    let mut blocks: BTreeMap<String, Vec<u8>> = BTreeMap::new();
    if let Ok(rd) = std::fs::read_dir(arch.join("d")) {
        for sub in rd.flatten() {
            for f in std::fs::read_dir(sub.path()).unwrap().flatten() {
                let name = f.file_name().to_string_lossy().to_string();
                if f.path().is_dir() {
                    bad.push(("format:block-undecodable".into(), json!({"block": name, "is_a_directory": true})));
                    continue;
                }
                let raw = std::fs::read(f.path()).unwrap();
                if raw.is_empty() {
                    continue; // zero-length leftover of a killed or failed write: never referenced (checked below)
                }
                match snap::raw::Decoder::new().decompress_vec(&raw) {
                    Err(e) => bad.push(("format:block-undecodable".into(), json!({"block": name, "bytes_on_disk": raw.len(), "error": e.to_string()}))),
                    Ok(content) => {
                        if blake_hex(&content) != name || !name.starts_with(&sub.file_name().to_string_lossy().to_string()) {
                            bad.push(("format:block-misnamed".into(), json!({"block": name})));
                        }
                        blocks.insert(name, content);
                    }
                }
            }
        }
    }
    let idx = arch.join(band_name(band)).join("i");
    let mut hunks: Vec<std::path::PathBuf> = Vec::new();
    if let Ok(rd) = std::fs::read_dir(&idx) {
        for sub in rd.flatten() {
            if let Ok(rd2) = std::fs::read_dir(sub.path()) {
                hunks.extend(rd2.flatten().map(|f| f.path()));
            }
        }
    }
    hunks.sort();
    for h in hunks {
        let bytes = std::fs::read(&h).unwrap_or_default();
        if bytes.is_empty() {
            continue;
        }
        let Some(entries) = crate::absarch::decode_hunk(&bytes) else {
            bad.push(("format:undecodable-hunk".into(), json!({"hunk": h.to_string_lossy()})));
            continue;
        };
        for e in entries.iter().filter(|e| crate::absarch::kind_char(e.kind) == 'f') {
            let mut got: Vec<u8> = Vec::new();
            let mut ok = true;
            for a in &e.addrs {
                match blocks.get(&a.hash) {
                    Some(c) if (a.start + a.len) as usize <= c.len() => got.extend_from_slice(&c[a.start as usize..(a.start + a.len) as usize]),
                    _ => ok = false,
                }
            }
            if !ok {
                bad.push(("format:address-outside-block".into(), json!({"apath": e.apath})));
            } else if let Some(want) = expect.get(&e.apath) {
                if &got != want {
                    bad.push(("format:content-differs".into(), json!({"apath": e.apath, "len": got.len(), "expected_len": want.len()})));
                }
            }
        }
    }
    bad
}

pub fn run(tier: &str, seed: u64, report: &mut Report) {
    source_changes_during_backup(report);
    full_disk_leaves_no_stub(seed, report);
    let thorough = tier == "thorough";
    big_index(seed, report);
    big_blocks(seed, report);
    let n_hist = if thorough { 300 } else { 25 };
    for h in 0..n_hist {
        let case_seed = seed.wrapping_mul(433494437).wrapping_add(h as u64);
        let mut rng = Rng::new(case_seed);
        let go = GenOpts { max_nodes: 14, block: 16, cap: 8, ..Default::default() };
        let mut steps = gen_history(&mut rng, if thorough { 20 } else { 12 }, &go, true, true);
        // C13 is about what THIS tool writes: no tails rewritten to an older tool's form
        steps.retain(|s| !matches!(s, Step::LegacyTail));
        if h == 0 {
            // directed: small files that fill a combined block exactly (the combiner flushes by itself and
            // parks the finished entries), then a hunk boundary reached by entries that bypass the combiner
            // (empty files, a directory), then another small file — in three variations of the hunk size
            let mk = |name: &str, kind: NodeKind, m: i64| Node { comps: if name.is_empty() { vec![] } else { name.split('/').map(|x| x.to_string()).collect() }, kind, mode: if name.is_empty() { 0o755 } else { 0o644 }, mtime_ns: 1_600_000_000_000_000_000 + m, uid: 0, gid: 0 };
            let mut t = Tree::default();
            t.nodes.insert("/".into(), mk("", NodeKind::Dir, 0));
            t.nodes.insert("/a".into(), mk("a", NodeKind::File(b"aaaaa".to_vec()), 1));
            t.nodes.insert("/b".into(), mk("b", NodeKind::File(b"bbbbb".to_vec()), 2));
            t.nodes.insert("/c".into(), mk("c", NodeKind::File(vec![]), 3));
            t.nodes.insert("/d".into(), mk("d", NodeKind::File(vec![]), 4));
            t.nodes.insert("/e".into(), mk("e", NodeKind::File(b"ee".to_vec()), 5));
            t.nodes.insert("/f".into(), mk("f", NodeKind::File(b"0123456789abcdef0123".to_vec()), 6));
            t.nodes.insert("/g".into(), mk("g", NodeKind::File(b"gg".to_vec()), 7));
            steps = vec![Step::SetTree(t.clone())];
            for hunk in [3usize, 2, 4] {
                steps.push(Step::Backup(BackupParamsLite { hunk, block: 8, cap: 6 }));
                steps.push(Step::Delete(vec![], false));
            }
        }
        let case_id = json!({"case_seed": case_seed, "steps": history_json(&steps)});
        let o = HistOpts { restore_each: false, raw: false, sig: "fmt" };
        let run = run_history(&steps, &o, report, &case_id);
        let answers = run.session.run();
        compare_history(&run, &answers, 0, &o, report, &case_id);
        // the Lean predicate on every REAL state, and the independent reader
        let mut s2 = Session::new();
        let mut idx = Vec::new();
        for (si, rec) in run.records.iter().enumerate() {
            if rec.kind == "set-tree" {
                continue;
            }
            s2.load_store(&rec.state_after);
            idx.push((si, s2.push("check conforms".into())));
            let case = json!({"history": case_id, "after_step": si, "step": rec.step});
            for (sig, what) in format_violations(&rec.state_after, &rec.snapshots_after) {
                report.oracle_fail(&sig, case.clone(), "the independent reader of the documented format found a violation", what);
            }
            report.case(&format!("{case_seed}/{si}"), true);
            report.hit(&format!("after:{}", rec.kind));
        }
        let a2 = s2.run();
        for (si, i) in idx {
            let ans = a2[i].first().cloned().unwrap_or_default();
            if !ans.starts_with("true") {
                let case = json!({"history": case_id, "after_step": si, "step": run.records[si].step});
                report.oracle_fail("format:lean-conforms-false", case, "the Lean predicate Conforms is false on the real archive state", json!(ans));
            }
        }
        if h == 0 {
            report.sample(json!({"case_seed": case_seed, "steps": steps.len(), "states_checked": run.records.len()}));
        }
    }
}
