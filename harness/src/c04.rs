//! C04: storage errors never make the archive record wrong content or a false success.
//! For every operation of the fault-free backup trace x every error kind, plus random
//! multi-fault runs: real vs model (trace, state, result, events), and the oracles of the property.
use crate::absarch::abstract_archive;
use crate::compare::*;
use crate::hist::*;
use crate::icept::IceptConfig;
use crate::real::*;
use crate::report::Report;
use crate::rng::Rng;
use crate::sweep::*;
use crate::treespec::*;
use serde_json::{Value, json};
use std::collections::BTreeMap;

pub const KINDS: &[&str] = &["nf", "ae", "pd", "ot"];

struct Pending {
    case: Value,
    real: RunResult,
    i_req: usize,
    state: Vec<String>,
    i_dump: usize,
}

/// The property's own oracles, evaluated on the real outcome only.
pub fn oracles(report: &mut Report, case: &Value, sc: &Scenario, real: &RunResult, pre: &[String], post: &[String], new_band: u32, arch: &std::path::Path) {
    if real.result.starts_with("result panic") {
        report.oracle_fail("fault:panic", case.clone(), "a storage error crashed the backup", json!(trunc(&real.result)));
        return;
    }
    if let Some(why) = extends(pre, post) {
        report.oracle_fail("fault:earlier-version-touched", case.clone(), "an existing archive file changed or disappeared during a failing backup", json!(why));
    }
    let st = state_map(post);
    let src: BTreeMap<&str, &Obs> = sc.src_obs.iter().map(|o| (o.apath.as_str(), o)).collect();
    // every file entry recorded in the new band reads back to the source bytes
    for (hunk, e) in band_entries(&st, new_band) {
        if e.kind != 'f' {
            continue;
        }
        match entry_content(&st, &e) {
            Err(why) => {
                report.oracle_fail("fault:dangling-reference", case.clone(), "a recorded file entry refers to a missing/short/corrupt block", json!({"hunk": hunk, "apath": e.apath, "why": why}));
            }
            Ok(bytes) => match src.get(e.apath.as_str()) {
                Some(o) if o.content == bytes => {}
                Some(o) => {
                    report.oracle_fail("fault:wrong-content", case.clone(), "a recorded file entry restores to bytes that are not that file's", json!({"hunk": hunk, "apath": e.apath, "expected_hex": hex::encode(&o.content), "got_hex": hex::encode(&bytes)}));
                }
                None => {
                    report.oracle_fail("fault:phantom-entry", case.clone(), "an entry was recorded for a path that is not in the source", json!({"apath": e.apath}));
                }
            },
        }
    }
    // complete success => the version restores the whole source exactly
    let clean = real.result.starts_with("result ok") && real.result.contains(" errors=0") && !real.events.iter().any(|e| e.starts_with("event error"));
    if clean {
        let (rr, robs) = restore_observe(arch, sc.run.work.path(), &Sel::Band(new_band), "c04");
        if !rr.result.starts_with("result ok") || !rr.events.is_empty() {
            report.oracle_fail("fault:false-success", case.clone(), "backup reported complete success but the version does not restore cleanly", json!({"result": trunc(&rr.result), "events": rr.events.iter().take(3).collect::<Vec<_>>()}));
        } else if let Some(d) = crate::c01::tree_diff(&sc.src_obs, &robs) {
            report.oracle_fail("fault:false-success", case.clone(), "backup reported complete success but the restored tree differs from the source", d);
        }
    }
}

/// Directed: a REAL storage failure below the transport layer — the archive lives on a 3 MiB tmpfs and the
/// source holds more incompressible data than fits, so some write hits ENOSPC part way through (the injected
/// faults of the sweeps are raised above the local transport and never exercise its own error handling).
/// Real code + the property's oracles on the raw archive.  Needs root (mount); skipped with a note otherwise.
fn enospc(seed: u64, report: &mut Report) {
    let work = tempfile::tempdir().unwrap();
    let mnt = work.path().join("mnt");
    std::fs::create_dir(&mnt).unwrap();
    let mounted = std::process::Command::new("mount").args(["-t", "tmpfs", "-o", "size=3m", "tmpfs"]).arg(&mnt).status().map(|s| s.success()).unwrap_or(false);
    if !mounted {
        report.hit("enospc:mount-unavailable");
        report.notes.push("could not mount a small tmpfs (not root?): the ENOSPC scenario is skipped".into());
        return;
    }
    let arch = mnt.join("arch");
    let src = work.path().join("src");
    std::fs::create_dir(&src).unwrap();
    let mut x = seed | 1;
    let mut noise = |n: usize| -> Vec<u8> { (0..n).map(|_| { x ^= x << 13; x ^= x >> 7; x ^= x << 17; (x >> 24) as u8 }).collect() };
    let mib = 1usize << 20;
    let files: Vec<(String, Vec<u8>)> = vec![("a-small".into(), b"hello".to_vec()), ("b-noise".into(), noise(mib + mib / 2)), ("c-noise".into(), noise(mib + mib / 5)), ("d-small".into(), b"after".to_vec()), ("e-noise".into(), noise(mib)), ("f-noise".into(), noise(2 * mib + mib / 2))];
    // (each of b, c, e is written as ONE chunk of at most 2 MiB — tokio's per-call limit —, f as two: a failure
    // can hit an only chunk, a first chunk or a last chunk)
    for (n, b) in &files {
        std::fs::write(src.join(n), b).unwrap();
    }
    create_archive(&arch);
    let p = BackupParams { max_entries_per_hunk: 100_000, max_block_size: 20 << 20, small_file_cap: 16, owner: true, exclude: vec![] };
    let r = real_backup(&arch, &src, &p, IceptConfig::default());
    let case = json!({"directed": "enospc", "archive_on": "tmpfs size=3m", "files": files.iter().map(|(n, b)| json!({"name": n, "len": b.len()})).collect::<Vec<_>>(), "result": trunc(&r.result)});
    report.case("enospc", true);
    report.hit("directed:enospc");
    let clean = r.result.starts_with("result ok") && r.result.contains(" errors=0") && !r.events.iter().any(|e| e.starts_with("event error"));
    report.hit(if clean { "enospc:backup-reported-clean" } else { "enospc:backup-reported-errors" });
    if r.result.starts_with("result panic") {
        report.oracle_fail("fault:panic", case.clone(), "a full disk crashed the backup", json!(trunc(&r.result)));
    }
    // whatever was recorded must read back to exactly the source bytes, from blocks that decode
    let expect: BTreeMap<String, Vec<u8>> = files.iter().map(|(n, b)| (format!("/{n}"), b.clone())).collect();
    let found = crate::c13::raw_reader(&arch, 0, &expect);
    for (sig, what) in &found {
        let sig2 = match sig.as_str() { "format:address-outside-block" | "format:block-undecodable" => "fault:dangling-reference", "format:content-differs" => "fault:wrong-content", other => other };
        report.oracle_fail(sig2, case.clone(), "after a backup that hit a full disk, something recorded in the archive does not read back to the source's bytes", what.clone());
    }
    if clean && found.is_empty() {
        // a clean success must have everything: the disk was too small for that, so a clean result is itself suspect
        let recorded: usize = std::fs::read(arch.join("b0000/i/00000/000000000")).ok().and_then(|b| crate::absarch::decode_hunk(&b)).map(|es| es.len()).unwrap_or(0);
        if recorded < files.len() + 1 {
            report.oracle_fail("fault:false-success", case.clone(), "the backup reported complete success on a disk that could not hold the source, and entries are missing", json!({"recorded_entries": recorded}));
        }
    }
    let _ = std::process::Command::new("umount").arg(&mnt).status();
}


/// Directed, real code + the property's oracles: the storage error is "already exists" for a BLOCK, and it is
/// genuine — another backup, running at the same time into the same archive, has just stored a block of the same
/// content.  The refused backup may fail or count an error; the block belongs to the other writer, whose
/// completed version must keep restoring exactly (no dangling reference).
fn refused_block_belongs_to_another_writer(report: &mut Report) {
    use crate::conc::*;
    let mk = |name: &str, kind: NodeKind, m: i64| Node { comps: if name.is_empty() { vec![] } else { vec![name.to_string()] }, kind: kind.clone(), mode: if matches!(kind, NodeKind::Dir) { 0o755 } else { 0o644 }, mtime_ns: 1_640_000_000_000_000_000 + m, uid: 0, gid: 0 };
    let shared: Vec<u8> = (0..60u8).map(|i| i.wrapping_mul(7) ^ 0x5a).collect();
    let mut t0 = Tree::default();
    t0.nodes.insert("/".into(), mk("", NodeKind::Dir, 0));
    t0.nodes.insert("/old".into(), mk("old", NodeKind::File(b"the first version".to_vec()), 1));
    let mut ta = t0.clone();
    ta.nodes.insert("/a-only".into(), mk("a-only", NodeKind::File(b"only in source A, longer than the cap".to_vec()), 2));
    ta.nodes.insert("/shared".into(), mk("shared", NodeKind::File(shared.clone()), 3));
    let mut tb = t0.clone();
    tb.nodes.insert("/b-only".into(), mk("b-only", NodeKind::File(b"only in source B, longer than the cap".to_vec()), 4));
    tb.nodes.insert("/shared".into(), mk("shared", NodeKind::File(shared), 5));
    let steps = vec![Step::SetTree(t0), Step::Backup(BackupParamsLite { hunk: 1000, block: 1 << 20, cap: 8 }), Step::SetTree(ta)];
    let case_id = json!({"directed": "two backups store the same new block", "prefix": history_json(&steps)});
    let sc = build_scenario(&steps, report, &case_id, "fault-race-prefix");
    let src_b = sc.run.work.path().join("src-b");
    tb.materialize(&src_b);
    let obs_b = observe(&src_b);
    let pa = BackupParamsOwned { hunk: 1000, block: 1 << 20, cap: 8 };
    let a = ActorSpec::Backup { params: pa.clone(), source: sc.run.src.clone(), slot: 0 };
    let b = ActorSpec::Backup { params: pa, source: src_b.clone(), slot: 1 };
    for i in 0..16usize {
        let arch = fresh_copy(&sc, "frace");
        let mut sched = vec![false; i];
        sched.extend(vec![true; 400]);
        let (ra, rb) = run_schedule(&arch, &a, &b, &sched);
        let (post, _) = abstract_archive(&arch);
        let case = json!({"scenario": case_id, "schedule": format!("A moves {i} times, then B to the end, then A")});
        report.case(&format!("fault-race/{i}"), true);
        report.hit("directed:refused-block-of-another-writer");
        if ra.trace.iter().any(|l| l.starts_with("op write d/") && !l.ends_with(" ok")) {
            report.hit("directed:refused-block-of-another-writer:refusal-happened");
        }
        if ra.result.starts_with("result panic") || rb.result.starts_with("result panic") {
            report.oracle_fail("fault:panic", case.clone(), "a refused block write crashed a backup", json!({"a": trunc(&ra.result), "b": trunc(&rb.result)}));
        }
        if let Some(why) = extends(&sc.pre_state, &post) {
            report.oracle_fail("fault:existing-file-touched", case.clone(), "the backups altered or removed an existing archive file", json!(why));
        }
        let st = state_map(&post);
        for band in all_bands(&post) {
            for (hunk, e) in band_entries(&st, band) {
                if let Err(why) = entry_content(&st, &e) {
                    report.oracle_fail("fault:dangling-reference", case.clone(), "an index entry refers to a block that is missing or too short after a block write was refused", json!({"hunk": hunk, "apath": e.apath, "why": why, "a": trunc(&ra.result)}));
                }
            }
        }
        if rb.result.starts_with("result ok") && rb.result.contains(" errors=0") {
            let mine = complete_bands(&post).into_iter().find(|x| rb.trace.iter().any(|l| l.starts_with(&format!("op write {}/BANDTAIL", band_name(*x))) && l.ends_with(" ok")));
            match mine {
                None => report.oracle_fail("fault:false-success", case.clone(), "a backup reported clean success but its version is not complete in the archive", json!(trunc(&rb.result))),
                Some(x) => {
                    let (rr, robs) = restore_observe(&arch, sc.run.work.path(), &Sel::Band(x), "frace");
                    if !rr.result.starts_with("result ok") || !rr.events.is_empty() || crate::c01::tree_diff(&obs_b, &robs).is_some() {
                        report.oracle_fail("fault:false-success", case.clone(), "the version of the backup that reported clean success does not restore to its source after the other backup's block write was refused", json!({"band": band_name(x), "restore": trunc(&rr.result), "events": rr.events.iter().take(2).collect::<Vec<_>>()}));
                    }
                }
            }
        }
        remove_copy(&arch);
    }
}


/// Plants something at the path of the FIRST block the backup tries to write, just before that write: what
/// another writer that died half-way leaves (a non-empty, truncated file under the final name) or a directory.
struct PlantAtFirstBlock {
    root: std::path::PathBuf,
    what: &'static str,
    done: std::sync::atomic::AtomicBool,
    planted: std::sync::Mutex<Option<String>>,
}

impl conserve::transport::verif_hooks::Interceptor for PlantAtFirstBlock {
    fn before(&self, op: &conserve::transport::verif_hooks::OpInfo) -> conserve::transport::verif_hooks::Decision {
        use conserve::transport::verif_hooks::{Decision, Verb};
        let path = op.path.trim_start_matches("./");
        if op.verb == Verb::Write && path.starts_with("d/") && !self.done.swap(true, std::sync::atomic::Ordering::SeqCst) {
            let full = self.root.join(path);
            match self.what {
                "directory" => std::fs::create_dir(&full).unwrap(),
                _ => {
                    let payload = op.payload.clone().unwrap_or_default();
                    std::fs::write(&full, &payload[..payload.len() / 2]).unwrap();
                }
            }
            *self.planted.lock().unwrap() = Some(path.to_string());
        }
        Decision::Proceed
    }
    fn after(&self, _op: &conserve::transport::verif_hooks::OpInfo, _outcome: &conserve::transport::verif_hooks::Outcome) {}
}

/// Directed, real code + the property's oracles: a block write is refused with a GENUINE "already exists" —
/// but what exists is not the block: a truncated file another writer left when it died, or a directory.  The file
/// concerned may be skipped with an error; it must not be recorded as if its content were stored.
fn refused_block_is_not_the_block(report: &mut Report) {
    for what in ["half-written file", "directory"] {
        let work = tempfile::tempdir().unwrap();
        let (src, arch) = (work.path().join("src"), work.path().join("arch"));
        std::fs::create_dir(&src).unwrap();
        let big: Vec<u8> = (0..5000u32).map(|i| (i.wrapping_mul(2654435761) >> 24) as u8).collect();
        let files: Vec<(&str, Vec<u8>)> = vec![("a-small", b"hello".to_vec()), ("big.bin", big), ("z-other", b"another file, longer than the cap".to_vec())];
        for (n, c) in &files {
            std::fs::write(src.join(n), c).unwrap();
        }
        create_archive(&arch);
        let ic = std::sync::Arc::new(PlantAtFirstBlock { root: arch.clone(), what: if what == "directory" { "directory" } else { "half" }, done: Default::default(), planted: Default::default() });
        let rt = tokio::runtime::Builder::new_current_thread().enable_all().build().unwrap();
        let monitor = conserve::monitor::test::TestMonitor::arc();
        let (ic2, a2, s2, m2) = (ic.clone(), arch.clone(), src.clone(), monitor.clone());
        let r = rt.block_on(async move {
            let transport = conserve::transport::Transport::local(&a2).with_interceptor(ic2);
            let archive = conserve::Archive::open(transport).await?;
            let options = conserve::BackupOptions { max_entries_per_hunk: 1000, max_block_size: 1 << 20, small_file_cap: 16, ..Default::default() };
            conserve::backup(&archive, &s2, &options, m2).await
        });
        drop(rt);
        let planted = ic.planted.lock().unwrap().clone();
        let n_errors = monitor.take_errors().len();
        let case = json!({"directed": "a block write refused because something else has the name", "planted": what, "at": planted});
        report.case(&format!("refused-not-the-block/{what}"), planted.is_some());
        report.hit("directed:refused-block-is-not-the-block");
        let clean = matches!(&r, Ok(st) if st.errors == 0) && n_errors == 0;
        // every recorded entry reads back to the source bytes from blocks that decode
        let expect: BTreeMap<String, Vec<u8>> = files.iter().map(|(n, c)| (format!("/{n}"), c.clone())).collect();
        for (sig, found) in crate::c13::raw_reader(&arch, 0, &expect) {
            // (the planted thing itself is not the tool's doing)
            if sig == "format:block-undecodable" && planted.as_deref().map(|p| found["block"].as_str().map(|b| p.ends_with(b)).unwrap_or(false)).unwrap_or(false) {
                continue;
            }
            let sig2 = match sig.as_str() { "format:address-outside-block" => "fault:dangling-reference", "format:content-differs" => "fault:wrong-content", other => other };
            report.oracle_fail(sig2, case.clone(), "after a block write was refused because something else has the block's name, an entry was recorded that does not read back to the source's bytes", found);
        }
        if clean {
            let (rr, robs) = restore_observe(&arch, work.path(), &Sel::Latest, "refused");
            if !rr.result.starts_with("result ok") || !rr.events.is_empty() || crate::c01::tree_diff(&observe(&src), &robs).is_some() {
                report.oracle_fail("fault:false-success", case.clone(), "the backup reported complete success although a block could not be stored, and the version does not restore the source", json!({"restore": trunc(&rr.result), "events": rr.events.iter().take(2).collect::<Vec<_>>()}));
            }
        }
    }
}

pub fn run(tier: &str, seed: u64, report: &mut Report) {
    enospc(seed, report);
    refused_block_is_not_the_block(report);
    refused_block_belongs_to_another_writer(report);
    let thorough = tier == "thorough";
    let n_scen = if thorough { 40 } else { 4 };
    for sidx in 0..n_scen {
        let case_seed = seed.wrapping_mul(104729).wrapping_add(sidx as u64);
        let mut rng = Rng::new(case_seed);
        // small blocks so that combined-block flushes happen mid-run
        let go = GenOpts { max_nodes: 12, block: 8, cap: 6, max_depth: 3, ..Default::default() };
        let hl = if rng.chance(1, 3) { 2 } else { 5 };
        let mut steps = gen_history(&mut rng, hl, &go, false, false);
        // a final tree change so the swept backup has work to do
        let last_tree = steps.iter().rev().find_map(|s| if let Step::SetTree(t) = s { Some(t.clone()) } else { None }).unwrap();
        let mut clock = 1_700_000_000_000_000_000;
        steps.push(Step::SetTree(mutate_tree(&mut rng, &last_tree, &go, &mut clock)));
        let mut params = BackupParamsLite { hunk: *rng.pick(&[1usize, 2, 3, 1000]), block: *rng.pick(&[3usize, 4, 8, 16]), cap: *rng.pick(&[4u64, 8, 64]) };
        if sidx == 0 {
            // directed scenario (always run): the same content is stored AGAIN after the write that may be
            // faulted — a combined block whose flush is retried at the end of the run, and identical files
            // too large to combine — so that "a failed write is later taken for a stored block" shows up.
            let mut t = Tree::default();
            let mk = |comps: Vec<&str>, kind: NodeKind, m: i64| Node { comps: comps.iter().map(|s| s.to_string()).collect(), kind, mode: if comps.is_empty() { 0o755 } else { 0o644 }, mtime_ns: 1_600_000_000_000_000_000 + m, uid: 0, gid: 0 };
            t.nodes.insert("/".into(), mk(vec![], NodeKind::Dir, 0));
            let n_small = 3 + rng.below(3);
            for i in 0..n_small {
                let name = format!("s{i}");
                let body: Vec<u8> = (0..4).map(|j| b'a' + (i * 4 + j) as u8).collect();
                t.nodes.insert(format!("/{name}"), mk(vec![&name], NodeKind::File(body), i as i64 + 1));
            }
            let big: Vec<u8> = (0..(9 + rng.below(12))).map(|j| b'A' + (j % 26) as u8).collect();
            for name in ["w1", "w2", "w3"] {
                t.nodes.insert(format!("/{name}"), mk(vec![name], NodeKind::File(big.clone()), 50));
            }
            steps = vec![Step::SetTree(t)];
            params = BackupParamsLite { hunk: 1000, block: 8, cap: 6 };
        }
        let case_id = json!({"case_seed": case_seed, "prefix": history_json(&steps), "final_backup": params.json()});
        let sc = build_scenario(&steps, report, &case_id, "fault-prefix");
        let p = params.params();
        let new_band = all_bands(&sc.pre_state).into_iter().max().map(|b| b + 1).unwrap_or(0);
        // fault-free reference run
        let arch0 = fresh_copy(&sc, "ff");
        let ff = real_backup(&arch0, &sc.run.src, &p, IceptConfig::default());
        remove_copy(&arch0);
        let n_ops = ff.trace.len();
        report.hit_n("fault-free-trace-ops", n_ops as u64);
        let mut session = Session::new();
        session.load_src(&src_lines(&sc.src_obs));
        let mut pend: Vec<Pending> = Vec::new();
        let mut plans: Vec<(Value, Vec<crate::icept::FaultSpec>, Option<(u32, u32, u64)>)> = Vec::new();
        for i in 0..n_ops {
            let (verb, path, nth) = op_id_of(&ff.trace, i).unwrap();
            for k in KINDS {
                plans.push((json!({"fault": {"op_index": i, "verb": verb, "path": path, "nth": nth, "kind": k}}), vec![fault_spec(&verb, &path, nth, k)], None));
            }
        }
        // the same WRITE failing on its first two attempts, the second time with AlreadyExists: only reaches
        // the code if it retries — and then "the first attempt must have got through" is the tempting mistake
        for i in 0..n_ops {
            let (verb, path, nth) = op_id_of(&ff.trace, i).unwrap();
            if verb == "write" && (thorough || path.contains("/i/") || path.ends_with("BANDTAIL") || i % 3 == 0) {
                plans.push((json!({"double_fault": {"op_index": i, "verb": verb, "path": path, "nth": nth, "kinds": ["ot", "ae"]}}), vec![fault_spec(&verb, &path, nth, "ot"), fault_spec(&verb, &path, nth + 1, "ae")], None));
            }
        }
        let n_multi = if thorough { 60 } else { 25 };
        for m in 0..n_multi {
            let (num, den) = if m % 2 == 0 { (1, 20) } else { (1, 5) };
            plans.push((json!({"random_faults": {"p": format!("{num}/{den}"), "seed": case_seed + m}}), vec![], Some((num, den, case_seed + m as u64))));
        }
        for (pi, (fdesc, faults, random)) in plans.iter().enumerate() {
            let arch = fresh_copy(&sc, "f");
            let cfg = IceptConfig { faults: faults.clone(), random_faults: *random, ..Default::default() };
            let real = real_backup(&arch, &sc.run.src, &p, cfg);
            let (post, _) = abstract_archive(&arch);
            let case = json!({"scenario": case_id, "plan": fdesc});
            oracles(report, &case, &sc, &real, &sc.pre_state, &post, new_band, &arch);
            remove_copy(&arch);
            // the model gets exactly the faults that were injected
            let injected: Vec<crate::icept::FaultSpec> = if random.is_some() { real.injected.clone() } else { faults.clone() };
            session.load_store(&sc.pre_state);
            let toks: Vec<String> = injected.iter().map(fault_token).collect();
            let i_req = session.push(format!("backup {} - {}", p.model_args(), toks.join(" ")).trim_end().to_string());
            let i_dump = session.push("dump".into());
            let nontrivial = real.trace.iter().any(|l| l.contains(" err:"));
            report.case(&format!("{case_seed}/{pi}"), nontrivial);
            if random.is_some() {
                report.hit("plan:random-multi-fault");
                report.hit_n("random-faults-injected", injected.len() as u64);
            } else {
                report.hit(&format!("plan:{}-{}", if faults.len() > 1 { "double" } else { "single" }, faults[0].path.split('/').next().unwrap_or("?").chars().next().map(|c| if c == 'b' { "band" } else if c == 'd' { "blockdir" } else { "root" }).unwrap_or("?")));
            }
            if real.result.starts_with("result err") {
                report.hit("outcome:error-returned");
            } else if real.result.contains(" errors=0") {
                report.hit("outcome:ok-clean");
            } else {
                report.hit("outcome:ok-with-errors-counted");
            }
            pend.push(Pending { case, real, i_req, state: post, i_dump });
        }
        if sidx == 0 {
            report.sample(json!({"scenario": case_id, "plans": plans.iter().take(3).map(|p| p.0.clone()).collect::<Vec<_>>(), "fault_free_trace_len": n_ops}));
        }
        let answers = session.run();
        for p in &pend {
            let m = parse_answer(&answers[p.i_req]);
            let before = report.disagreements.len();
            // error events compared as a multiset: the code reads the basis lazily, so errors of faulted basis
            // reads interleave differently with per-file errors than in the (eager) model
            compare_run(report, "fault:backup", &p.case, &p.real, &m, &CmpOpts { errors_unordered: true, ..Default::default() });
            if std::env::var("VERIF_DEBUG").is_ok() && report.disagreements.len() > before && before < 2 {
                eprintln!("==== CASE {}", p.case["plan"]);
                eprintln!("---- real\n{}\n{}\n{}", p.real.trace.join("\n"), p.real.events.join("\n"), p.real.result);
                eprintln!("---- model\n{}\n{}\n{}", m.trace.join("\n"), m.events.join("\n"), m.result);
            }
            compare_state(report, "fault:backup", &p.case, &p.state, &answers[p.i_dump]);
        }
    }
}
