//! Access to the LD_PRELOAD clock shim (harness/clockshim.c), when the process was started with it.
use std::sync::OnceLock;

type JumpFn = unsafe extern "C" fn(i64);

fn sym() -> Option<JumpFn> {
    static S: OnceLock<Option<usize>> = OnceLock::new();
    let p = *S.get_or_init(|| {
        let name = b"verif_clock_jump\0";
        let p = unsafe { nix::libc::dlsym(nix::libc::RTLD_DEFAULT, name.as_ptr() as *const nix::libc::c_char) };
        if p.is_null() { None } else { Some(p as usize) }
    });
    p.map(|a| unsafe { std::mem::transmute::<usize, JumpFn>(a) })
}

/// Is the shim loaded?
pub fn available() -> bool {
    sym().is_some()
}

/// Move the process's monotonic and wall clocks forward by `secs` seconds (no-op without the shim).
pub fn jump(secs: u64) {
    if let Some(f) = sym() {
        unsafe { f((secs as i64).saturating_mul(1_000_000_000)) }
    }
}
