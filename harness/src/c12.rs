//! C12: subtree selection.  Pure part: `is_prefix_of` against the model and the component rule.
use crate::model::{run_model_1, s};
use crate::pathgen::*;
use crate::report::Report;
use crate::rng::Rng;
use conserve::Apath;
use serde_json::json;

pub fn spec_prefix(sp: &str, a: &str) -> bool {
    let sc = components(sp);
    let ac = components(a);
    ac.len() >= sc.len() && ac[..sc.len()] == sc[..]
}

pub fn run_pure(tier: &str, seed: u64, report: &mut Report) {
    let mut rng = Rng::new(seed ^ 0x12);
    let thorough = tier == "thorough";
    let base = enumerate(VALID_COMPONENTS, 2);
    let deep = enumerate(VALID_COMPONENTS, 3);
    let mut pairs: Vec<(String, String)> = Vec::new();
    for a in &base {
        for b in &base {
            pairs.push((a.clone(), b.clone()));
        }
    }
    report.hit_n("prefix-pairs:exhaustive-depth2", pairs.len() as u64);
    for _ in 0..(if thorough { 400_000 } else { 40_000 }) {
        let a = rng.pick(&deep).clone();
        // b: extension, textual extension, or random
        let b = match rng.below(4) {
            0 => format!("{}/{}", if a == "/" { "" } else { &a }, rng.pick(VALID_COMPONENTS)),
            1 => format!("{}{}", a, rng.pick(VALID_COMPONENTS)),
            2 => format!("{}{}/{}", a, rng.pick(VALID_COMPONENTS), rng.pick(VALID_COMPONENTS)),
            _ => rng.pick(&deep).clone(),
        };
        if Apath::is_valid(&b) {
            pairs.push((a, b));
        }
    }
    let reqs: Vec<String> = pairs.iter().map(|(a, b)| format!("prefix {} {}", s(a.as_bytes()), s(b.as_bytes()))).collect();
    let ans = run_model_1(&reqs);
    for ((sp, a), m) in pairs.iter().zip(ans.iter()) {
        let i = Apath::from(sp.as_str()).is_prefix_of(&Apath::from(a.as_str()));
        let nontrivial = a.starts_with(sp.as_str());
        report.case(&format!("prefix {sp:?} {a:?}"), nontrivial);
        report.hit(if i { "prefix:true" } else { "prefix:false" });
        if !sp.is_ascii() {
            report.hit("prefix:non-ascii-subtree");
        }
        let case = || json!({"op":"is_prefix_of","subtree":sp,"path":a});
        if i.to_string() != *m {
            report.disagree("prefix", case(), json!(i), json!(m));
        }
        if i != spec_prefix(sp, a) {
            let sig = if sp.is_ascii() { "prefix-spec" } else { "prefix-spec-nonascii" };
            report.oracle_fail(sig, case(), "is_prefix_of differs from whole-component ancestry", json!(i));
        }
    }
    let k = pairs.len() / 3;
    report.sample(json!({"op":"is_prefix_of","subtree":pairs[k].0,"path":pairs[k].1,"answer":ans[k]}));
    report.sample(json!({"op":"is_prefix_of","subtree":pairs[pairs.len()-1].0,"path":pairs[pairs.len()-1].1,"answer":ans[pairs.len()-1]}));
}
