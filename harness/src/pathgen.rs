//! Path alphabets and enumerations shared by several checks.
use crate::rng::Rng;
use conserve::Apath;

/// Components exercising the ordering: empty, dots, bytes below '/' (space - .) and
/// above it, multi-byte UTF-8, shared prefixes, NUL.
pub const COMPONENTS: &[&str] = &[
    "", ".", "..", " ", "-", ".a", "a", "a-", "a.b", "ab", "~", "ñ", "ñx", "日", "a\0",
];

/// Only components valid in an apath.
pub const VALID_COMPONENTS: &[&str] = &[" ", "-", ".a", "..a", "0", "a", "a-", "a.b", "ab", "b", "~", "ñ", "ñx", "日本"];

pub fn join(comps: &[&str]) -> String {
    if comps.is_empty() {
        "/".to_string()
    } else {
        let mut s = String::new();
        for c in comps {
            s.push('/');
            s.push_str(c);
        }
        s
    }
}

/// All strings "/" + c1 + "/" + ... for depth 0..=max_depth over `alphabet`.
pub fn enumerate(alphabet: &[&str], max_depth: usize) -> Vec<String> {
    let mut out = vec!["/".to_string()];
    let mut layer: Vec<Vec<&str>> = vec![vec![]];
    for _ in 0..max_depth {
        let mut next = Vec::new();
        for p in &layer {
            for c in alphabet {
                let mut q = p.clone();
                q.push(*c);
                out.push(join(&q));
                next.push(q);
            }
        }
        layer = next;
    }
    out.sort();
    out.dedup();
    out
}

pub fn random_path(rng: &mut Rng, alphabet: &[&str], max_depth: usize) -> String {
    let d = rng.below(max_depth + 1);
    let comps: Vec<&str> = (0..d).map(|_| *rng.pick(alphabet)).collect();
    join(&comps)
}

/// Random string of arbitrary shape (may lack the leading slash).
pub fn random_string(rng: &mut Rng) -> String {
    let pieces = ["/", "/", "a", "b", ".", "..", " ", "-", "~", "ñ", "日", "\0", "ab", "//"];
    let n = rng.below(8);
    (0..n).map(|_| *rng.pick(&pieces)).collect()
}

/// An Apath built without validation (serde does not validate), so that every string can be
/// compared, as the index reader would hand it over.
pub fn raw_apath(s: &str) -> Apath {
    serde_json::from_value::<Apath>(serde_json::Value::String(s.to_string())).expect("deserialize apath")
}

/// Components below the root: "/a/b" -> ["a","b"], "/" -> [].
pub fn components(s: &str) -> Vec<&str> {
    match s.strip_prefix('/') {
        Some("") => vec![],
        Some(rest) => rest.split('/').collect(),
        None => if s.is_empty() { vec![] } else { s.split('/').collect() },
    }
}
