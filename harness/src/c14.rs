//! C14: work already stored is never stored again.
use crate::hist::*;
use crate::report::Report;
use crate::rng::Rng;
use crate::sweep::*;
use crate::treespec::*;
use serde_json::json;
use std::collections::{BTreeMap, BTreeSet};

/// Directed, real code + oracle: an unchanged tree containing a path of MORE THAN 1024 BYTES (five nested
/// directories with 230-byte names — every component legal) and files sharing a combined block, backed up
/// three times with the default options: the second and third backups store nothing again and record the
/// same addresses.
fn long_path_unchanged(report: &mut Report) {
    use crate::icept::IceptConfig;
    use crate::real::*;
    let work = tempfile::tempdir().unwrap();
    let (src, arch) = (work.path().join("src"), work.path().join("arch"));
    std::fs::create_dir(&src).unwrap();
    std::fs::write(src.join("one"), b"first small file").unwrap();
    std::fs::write(src.join("two"), b"second small file").unwrap();
    let mut deep = src.clone();
    for c in ["a", "b", "c", "d", "e"] {
        deep = deep.join(c.repeat(230));
    }
    std::fs::create_dir_all(&deep).unwrap();
    std::fs::write(deep.join("leaf"), b"deep small file").unwrap();
    create_archive(&arch);
    let p = BackupParams { max_entries_per_hunk: 100_000, max_block_size: 20 << 20, small_file_cap: 1 << 20, owner: true, exclude: vec![] };
    report.case("long-path-unchanged", true);
    report.hit("directed:long-path(>1024 bytes)");
    let blocks = |a: &std::path::Path| -> BTreeSet<String> { let mut s = BTreeSet::new(); if let Ok(rd) = std::fs::read_dir(a.join("d")) { for sub in rd.flatten() { for f in std::fs::read_dir(sub.path()).unwrap().flatten() { s.insert(f.file_name().to_string_lossy().to_string()); } } } s };
    let b0 = real_backup(&arch, &src, &p, IceptConfig::default());
    if !b0.result.starts_with("result ok") {
        report.oracle_fail("dedup:long-path-backup-failed", json!({"directed": "long-path"}), "a backup of a tree with a 1.2 KiB path failed", json!(crate::compare::trunc(&b0.result)));
        return;
    }
    let blocks0 = blocks(&arch);
    for round in 1..=2 {
        let r = real_backup(&arch, &src, &p, IceptConfig::default());
        let unmodified = r.result.split(' ').find_map(|t| t.strip_prefix("unmodified_files=")).and_then(|v| v.parse::<u64>().ok());
        let case = json!({"directed": "long-path", "backup_number": round + 1});
        if unmodified != Some(3) || blocks(&arch) != blocks0 || r.events.iter().any(|e| e.starts_with("event error")) {
            report.oracle_fail("dedup:unchanged-file-not-reused", case, "backing up an unchanged tree (with a path longer than 1024 bytes) read files again, wrote a block, or reported an error", json!({"result": crate::compare::trunc(&r.result), "events": r.events.iter().take(2).collect::<Vec<_>>(), "blocks_before": blocks0.len(), "blocks_after": blocks(&arch).len()}));
        }
    }
}

pub fn run(tier: &str, seed: u64, report: &mut Report) {
    long_path_unchanged(report);
    let thorough = tier == "thorough";
    let n_hist = if thorough { 300 } else { 30 };
    for h in 0..n_hist {
        let case_seed = seed.wrapping_mul(39916801).wrapping_add(h as u64);
        let mut rng = Rng::new(case_seed);
        let go = GenOpts { max_nodes: 14, block: 16, cap: 8, ..Default::default() };
        let mut steps = gen_history(&mut rng, if thorough { 20 } else { 10 }, &go, true, h % 2 == 0);
        // make sure each history also contains: a completed backup, then a backup of the unchanged tree with other options
        steps.push(Step::Backup(gen_params(&mut rng)));
        steps.push(Step::Backup(gen_params(&mut rng)));
        if h == 0 {
            // directed: two interruptions in a row — the first killed between creating BANDHEAD and writing it (a
            // zero-length head: the band cannot be opened), the second after some hunks — then a backup of the
            // unchanged tree: its basis is the second attempt's hunks and, THROUGH the unopenable band, the last
            // complete version; every unchanged file must be reused
            let mk = |name: &str, kind: NodeKind, m: i64| Node { comps: if name.is_empty() { vec![] } else { vec![name.to_string()] }, kind: kind.clone(), mode: if matches!(kind, NodeKind::Dir) { 0o755 } else { 0o644 }, mtime_ns: 1_620_000_000_000_000_000 + m, uid: 0, gid: 0 };
            let mut t = Tree::default();
            t.nodes.insert("/".into(), mk("", NodeKind::Dir, 0));
            for (i, name) in ["a", "b", "c", "d", "e", "f", "g"].iter().enumerate() {
                t.nodes.insert(format!("/{name}"), mk(name, NodeKind::File(format!("{name}: first content, {i}").into_bytes()), i as i64));
            }
            let mut t1 = t.clone();
            t1.nodes.insert("/d".into(), mk("d", NodeKind::File(b"d: second content, longer than before".to_vec()), 1_000_000_000));
            let p = BackupParamsLite { hunk: 2, block: 16, cap: 8 };
            steps = vec![Step::SetTree(t), Step::Backup(p.clone()), Step::SetTree(t1), Step::Backup(p.clone()), Step::BackupCrash(p.clone(), 3, 0), Step::BackupCrash(p.clone(), 1, 2), Step::Backup(p.clone()), Step::Backup(p)];
            report.hit("directed:unopenable-band-between-interrupted-basis-and-complete-version");
        }
        let case_id = json!({"case_seed": case_seed, "steps": history_json(&steps)});
        let o = HistOpts { restore_each: false, raw: false, sig: "dedup" };
        let run = run_history(&steps, &o, report, &case_id);
        let answers = run.session.run();
        compare_history(&run, &answers, 0, &o, report, &case_id);
        // (b) each distinct block is written at most once while it remains in the archive
        let mut live: BTreeSet<String> = run.records.first().map(|r| state_map(&r.state_before).into_iter().filter(|(k, v)| k.starts_with("d/") && v.starts_with("block:")).map(|(k, _)| k).collect()).unwrap_or_default();
        let mut prev_backup: Option<(usize, Vec<Obs>)> = None;
        for (si, rec) in run.records.iter().enumerate() {
            let case = json!({"history": case_id, "step_index": si, "step": rec.step});
            if let Some(real) = &rec.real {
                for l in &real.trace {
                    let p: Vec<&str> = l.split(' ').collect();
                    if p[1] == "write" && p[2].starts_with("d/") && p.last() == Some(&"ok") {
                        if live.contains(p[2]) {
                            report.oracle_fail("dedup:block-written-twice", case.clone(), "a block already present (non-empty) in the archive was written again", json!(p[2]));
                        }
                        live.insert(p[2].to_string());
                    }
                    if p[1] == "rm" && p[2].starts_with("d/") && p.last() == Some(&"ok") {
                        live.remove(p[2]);
                    }
                }
                // crashed runs may leave zero-length files: resync with the decoded state
                live = state_map(&rec.state_after).into_iter().filter(|(k, v)| k.starts_with("d/") && v.starts_with("block:")).map(|(k, _)| k).collect();
            }
            // (c') every file that is unchanged with respect to the basis listing (the stitched listing of
            //      the newest band before the run, by the format's rule) and whose blocks are all present
            //      must be reused, not stored again
            if rec.kind == "backup" {
                let real = rec.real.as_ref().unwrap();
                if real.result.starts_with("result ok") {
                    if let Some(nb) = all_bands(&rec.state_before).into_iter().max() {
                        let st_before = state_map(&rec.state_before);
                        let basis: BTreeMap<String, DecEntry> = expected_listing(&rec.state_before, nb).into_iter().map(|e| (e.apath.clone(), e)).collect();
                        let mut expect_unmodified = 0usize;
                        for o in rec.src_obs.iter().filter(|o| o.kind == 'f') {
                            if let Some(b) = basis.get(&o.apath) {
                                let f: Vec<&str> = b.raw.split(',').collect();
                                let (bsec, bnanos): (i64, i64) = (f[2].parse().unwrap_or(0), f[3].parse().unwrap_or(0));
                                let same_time = bsec * 1_000_000_000 + bnanos == o.mtime_ns;
                                let size: usize = b.addrs.iter().map(|a| a.2).sum();
                                let blocks_present = b.addrs.iter().all(|(h, _, _)| st_before.get(&format!("d/{}/{}", &h[..3], h)).map(|v| v.starts_with("block:")).unwrap_or(false));
                                if b.kind == 'f' && same_time && size == o.content.len() && blocks_present {
                                    expect_unmodified += 1;
                                }
                            }
                        }
                        let unmodified: usize = real.result.split(' ').find_map(|t| t.strip_prefix("unmodified_files=")).and_then(|v| v.parse().ok()).unwrap_or(0);
                        report.hit_n("files-expected-reused", expect_unmodified as u64);
                        if unmodified != expect_unmodified {
                            report.oracle_fail("dedup:unchanged-file-not-reused", case.clone(), "the number of files reused from the basis differs from the number of files unchanged with respect to the basis listing", json!({"expected_unmodified": expect_unmodified, "reported_unmodified": unmodified}));
                        }
                    }
                }
            }
            // (a) unchanged tree since the previous COMPLETED version (and that version is the newest band): no block writes, identical addresses
            if rec.kind == "backup" {
                let real = rec.real.as_ref().unwrap();
                if let Some((psi, pobs)) = &prev_backup {
                    let newest_before = all_bands(&rec.state_before).into_iter().max();
                    let prev_band_is_newest_complete = newest_before.is_some() && complete_bands(&rec.state_before).into_iter().max() == newest_before;
                    let only_trees_between = run.records[*psi + 1..si].iter().all(|r| r.kind == "set-tree");
                    if *pobs == rec.src_obs && prev_band_is_newest_complete && only_trees_between && real.result.starts_with("result ok") {
                        report.hit("unchanged-tree-backup");
                        if let Some(l) = real.trace.iter().find(|l| l.starts_with("op write d/")) {
                            report.oracle_fail("dedup:unchanged-tree-wrote-block", case.clone(), "backing up an unchanged tree wrote a data block", json!(l.split(' ').nth(2)));
                        }
                        let st = state_map(&rec.state_after);
                        let bands = all_bands(&rec.state_after);
                        let nb = *bands.iter().max().unwrap();
                        let pb = newest_before.unwrap();
                        let addrs = |b: u32| -> BTreeMap<String, String> { band_entries(&st, b).into_iter().map(|(_, e)| (e.apath.clone(), e.raw.split(',').nth(8).unwrap_or("").to_string())).collect() };
                        let (na, pa) = (addrs(nb), addrs(pb));
                        if na != pa {
                            let diff = na.iter().find(|(k, v)| pa.get(*k) != Some(*v)).map(|(k, _)| k.clone());
                            report.oracle_fail("dedup:unchanged-tree-new-addresses", case.clone(), "backing up an unchanged tree recorded different addresses", json!(diff));
                        }
                    }
                }
                if real.result.starts_with("result ok") {
                    prev_backup = Some((si, rec.src_obs.clone()));
                } else {
                    prev_backup = None;
                }
            } else if rec.kind != "set-tree" {
                prev_backup = None;
            }
            // (c) resume after an interruption: entries the interrupted run recorded for unchanged files are reused
            if rec.kind == "backup" && si > 0 && run.records[si - 1].kind == "backup-crash" {
                let real = rec.real.as_ref().unwrap();
                let st = state_map(&rec.state_before);
                // the band the interrupted run created (if it got that far): new w.r.t. the state before the
                // interrupted run, and the newest one now
                let before_crash: std::collections::BTreeSet<u32> = all_bands(&run.records[si - 1].state_before).into_iter().collect();
                if let Some(ib) = all_bands(&rec.state_before).into_iter().max().filter(|b| !before_crash.contains(b)) {
                    let recorded_files = band_entries(&st, ib).into_iter().filter(|(_, e)| e.kind == 'f').count();
                    let unmodified: usize = real.result.split(' ').find_map(|t| t.strip_prefix("unmodified_files=")).and_then(|v| v.parse().ok()).unwrap_or(0);
                    report.hit("resume-after-interruption");
                    if real.result.starts_with("result ok") && unmodified < recorded_files {
                        report.oracle_fail("dedup:resume-did-not-reuse-entries", case.clone(), "the resumed backup did not reuse the entries the interrupted run recorded for unchanged files", json!({"recorded_file_entries": recorded_files, "unmodified_files": unmodified}));
                    }
                }
            }
        }
        report.case(&format!("{case_seed}"), steps.len() > 3);
        if h == 0 {
            report.sample(json!({"case_seed": case_seed, "steps": steps.len()}));
        }
    }
}
