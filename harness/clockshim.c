/* LD_PRELOAD shim for the C17 check: lets the harness move the process's clocks FORWARD at a chosen
 * storage operation, so that a dependence of the archive's contents on elapsed or wall-clock time shows
 * up without waiting.  Only forward jumps (monotonic clocks stay monotonic). */
#define _GNU_SOURCE
#include <dlfcn.h>
#include <stdatomic.h>
#include <time.h>

static _Atomic long long off_ns = 0;

void verif_clock_jump(long long ns) {
    if (ns > 0) atomic_fetch_add(&off_ns, ns);
}

long long verif_clock_offset(void) { return atomic_load(&off_ns); }

int clock_gettime(clockid_t id, struct timespec *ts) {
    static int (*real)(clockid_t, struct timespec *) = 0;
    if (!real) real = (int (*)(clockid_t, struct timespec *))dlsym(RTLD_NEXT, "clock_gettime");
    int r = real(id, ts);
    if (r == 0 && (id == CLOCK_MONOTONIC || id == CLOCK_MONOTONIC_RAW || id == CLOCK_MONOTONIC_COARSE ||
                   id == CLOCK_BOOTTIME || id == CLOCK_REALTIME || id == CLOCK_REALTIME_COARSE)) {
        long long o = atomic_load(&off_ns);
        long long ns = (long long)ts->tv_nsec + o % 1000000000LL;
        ts->tv_sec += o / 1000000000LL + ns / 1000000000LL;
        ts->tv_nsec = ns % 1000000000LL;
    }
    return r;
}
